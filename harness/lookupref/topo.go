// Package lookupref holds the generators and reference models of the lookup
// binary (C30, C31): a seeded multi-ISD topology, hand-built up/core/down
// segments over it, an independent decoder of the raw SCION path, the segment
// request decision table and the revocation-cache model. Nothing here calls
// segfetcher, combinator or memrevcache.
package lookupref

import (
	"context"
	"fmt"
	"math/rand/v2"
	"sort"
	"time"

	"github.com/scionproto/scion/pkg/addr"
	cryptopb "github.com/scionproto/scion/pkg/proto/crypto"
	seg "github.com/scionproto/scion/pkg/segment"
)

// LinkKind is the kind of an inter-AS link.
type LinkKind int

const (
	LinkCore   LinkKind = iota // between two core ASes
	LinkParent                 // A is the parent (provider), B the child
	LinkPeer                   // peering between two non-core ASes
)

// Link is one inter-AS link; interface IDs are globally unique in a Topo.
type Link struct {
	A, B     addr.IA
	AIf, BIf uint16
	Kind     LinkKind
}

// Topo is a small generated SCION topology.
type Topo struct {
	ASes    []addr.IA
	Core    map[addr.IA]bool
	Links   []Link
	IfOwner map[uint16]addr.IA
	IfPeer  map[uint16]uint16 // interface -> interface at the other end
	IfKind  map[uint16]LinkKind
	// Children lists, per AS, the egress interfaces of its parent->child links.
	Children map[addr.IA][]uint16
	// CoreAdj lists, per core AS, its core-link interfaces.
	CoreAdj map[addr.IA][]uint16
	// Peerings lists, per AS, its peering interfaces (sorted).
	Peerings map[addr.IA][]uint16
	nextIf   uint16
}

// CoresOf returns the core ASes of an ISD in generation order.
func (t *Topo) CoresOf(isd addr.ISD) []addr.IA {
	var out []addr.IA
	for _, ia := range t.ASes {
		if ia.ISD() == isd && t.Core[ia] {
			out = append(out, ia)
		}
	}
	return out
}

// NonCores returns all non-core ASes in generation order.
func (t *Topo) NonCores() []addr.IA {
	var out []addr.IA
	for _, ia := range t.ASes {
		if !t.Core[ia] {
			out = append(out, ia)
		}
	}
	return out
}

// ISDs returns the ISDs present.
func (t *Topo) ISDs() []addr.ISD {
	seen := map[addr.ISD]bool{}
	var out []addr.ISD
	for _, ia := range t.ASes {
		if !seen[ia.ISD()] {
			seen[ia.ISD()] = true
			out = append(out, ia.ISD())
		}
	}
	return out
}

func (t *Topo) addLink(a, b addr.IA, kind LinkKind, rng *rand.Rand) {
	t.nextIf += uint16(1 + rng.IntN(3))
	ai := t.nextIf
	t.nextIf += uint16(1 + rng.IntN(3))
	bi := t.nextIf
	t.Links = append(t.Links, Link{A: a, B: b, AIf: ai, BIf: bi, Kind: kind})
	t.IfOwner[ai], t.IfOwner[bi] = a, b
	t.IfPeer[ai], t.IfPeer[bi] = bi, ai
	t.IfKind[ai], t.IfKind[bi] = kind, kind
	switch kind {
	case LinkCore:
		t.CoreAdj[a] = append(t.CoreAdj[a], ai)
		t.CoreAdj[b] = append(t.CoreAdj[b], bi)
	case LinkParent:
		t.Children[a] = append(t.Children[a], ai)
	case LinkPeer:
		t.Peerings[a] = append(t.Peerings[a], ai)
		t.Peerings[b] = append(t.Peerings[b], bi)
	}
}

// GenTopo builds a topology with 1-3 ISDs, 1-3 core ASes per ISD, 1-4
// non-core ASes per ISD in a provider DAG of depth <= 3, core links inside
// and across ISDs, a few peering links and occasional parallel links.
func GenTopo(rng *rand.Rand) *Topo {
	t := &Topo{
		Core: map[addr.IA]bool{}, IfOwner: map[uint16]addr.IA{}, IfPeer: map[uint16]uint16{},
		IfKind: map[uint16]LinkKind{}, Children: map[addr.IA][]uint16{},
		CoreAdj: map[addr.IA][]uint16{}, Peerings: map[addr.IA][]uint16{},
		nextIf: uint16(rng.IntN(50)),
	}
	nISD := 1 + rng.IntN(3)
	isdBase := 1 + rng.IntN(40)
	type isdInfo struct {
		cores, non []addr.IA
		depth      map[addr.IA]int
	}
	infos := make([]isdInfo, nISD)
	for i := 0; i < nISD; i++ {
		isd := addr.ISD(isdBase + i*(1+rng.IntN(3)))
		if i > 0 && isd <= infos[i-1].cores[0].ISD() {
			isd = infos[i-1].cores[0].ISD() + 1
		}
		nCore := 1
		if rng.IntN(5) >= 2 {
			nCore = 2 + rng.IntN(2)
		}
		nNon := 1 + rng.IntN(4)
		asBase := uint64(0xff00_0000_0100) + uint64(rng.IntN(0x40))<<8
		if rng.IntN(4) == 0 {
			asBase = uint64(64000 + rng.IntN(1000)) // BGP-style AS numbers
		}
		info := isdInfo{depth: map[addr.IA]int{}}
		for k := 0; k < nCore; k++ {
			ia := addr.MustIAFrom(isd, addr.AS(asBase+uint64(k)))
			t.ASes = append(t.ASes, ia)
			t.Core[ia] = true
			info.cores = append(info.cores, ia)
		}
		for k := 0; k < nNon; k++ {
			ia := addr.MustIAFrom(isd, addr.AS(asBase+0x10+uint64(k)))
			t.ASes = append(t.ASes, ia)
			info.non = append(info.non, ia)
		}
		// core chain + extras inside the ISD
		for k := 1; k < nCore; k++ {
			t.addLink(info.cores[k-1], info.cores[k], LinkCore, rng)
		}
		if nCore == 3 && rng.IntN(2) == 0 {
			t.addLink(info.cores[0], info.cores[2], LinkCore, rng)
		}
		if nCore >= 2 && rng.IntN(4) == 0 { // parallel core link
			t.addLink(info.cores[0], info.cores[1], LinkCore, rng)
		}
		// provider DAG
		for k, ia := range info.non {
			nPar := 1 + rng.IntN(2)
			for p := 0; p < nPar; p++ {
				var cands []addr.IA
				cands = append(cands, info.cores...)
				for _, o := range info.non[:k] {
					if info.depth[o] < 2 {
						cands = append(cands, o)
					}
				}
				par := cands[rng.IntN(len(cands))]
				d := 1
				if !t.Core[par] {
					d = info.depth[par] + 1
				}
				if d > info.depth[ia] {
					info.depth[ia] = d
				}
				t.addLink(par, ia, LinkParent, rng)
			}
		}
		infos[i] = info
	}
	// inter-ISD core links: connect consecutive ISDs, plus extras
	for i := 1; i < nISD; i++ {
		a := infos[i-1].cores[rng.IntN(len(infos[i-1].cores))]
		b := infos[i].cores[rng.IntN(len(infos[i].cores))]
		t.addLink(a, b, LinkCore, rng)
		if rng.IntN(3) == 0 {
			a = infos[i-1].cores[rng.IntN(len(infos[i-1].cores))]
			b = infos[i].cores[rng.IntN(len(infos[i].cores))]
			t.addLink(a, b, LinkCore, rng)
		}
	}
	if nISD == 3 && rng.IntN(2) == 0 {
		t.addLink(infos[0].cores[0], infos[2].cores[0], LinkCore, rng)
	}
	// peering links between non-core ASes (same or different ISD)
	non := t.NonCores()
	if len(non) >= 2 {
		for k := rng.IntN(3); k > 0; k-- {
			a := non[rng.IntN(len(non))]
			b := non[rng.IntN(len(non))]
			if a != b {
				t.addLink(a, b, LinkPeer, rng)
			}
		}
	}
	for _, l := range t.Peerings {
		sort.Slice(l, func(i, j int) bool { return l[i] < l[j] })
	}
	return t
}

// SegSpec is one hand-built segment together with what the oracle needs to
// know about it.
type SegSpec struct {
	Core bool // core segment (else usable as up and as down segment)
	// ASes in construction order; First is the originating core AS.
	ASes []addr.IA
	// Egress interfaces in construction order (len(ASes)-1).
	Egress []uint16
	TS     uint32
	// Hops holds every (ingress, egress, exptime) triple the segment offers
	// (hop entries and peer entries), for checking raw paths.
	Hops map[[3]uint16]bool
	// Expiry is the expiry of the complete segment (min over hop entries).
	Expiry time.Time
	Class  string
	Seg    *seg.PathSegment
}

func (s *SegSpec) First() addr.IA { return s.ASes[0] }
func (s *SegSpec) Last() addr.IA  { return s.ASes[len(s.ASes)-1] }

type nullSigner struct{}

func (nullSigner) Sign(_ context.Context, msg []byte, _ ...[]byte) (*cryptopb.SignedMessage, error) {
	return &cryptopb.SignedMessage{HeaderAndBody: msg, Signature: []byte{0}}, nil
}

// ExpUnit is the hop-field expiry unit: 24h / 256.
const ExpUnit = 337500 * time.Millisecond

// HopTTL is the documented lifetime of a hop field with the given ExpTime.
func HopTTL(exp uint8) time.Duration { return time.Duration(int(exp)+1) * ExpUnit }

// Chains enumerates all downward provider chains (core -> ... -> AS), as
// egress-interface sequences, up to the given number of links.
func (t *Topo) Chains(maxLinks int) [][]uint16 {
	var out [][]uint16
	var rec func(cur addr.IA, trail []uint16, seen map[addr.IA]bool)
	rec = func(cur addr.IA, trail []uint16, seen map[addr.IA]bool) {
		if len(trail) > 0 {
			out = append(out, append([]uint16(nil), trail...))
		}
		if len(trail) == maxLinks {
			return
		}
		for _, eg := range t.Children[cur] {
			next := t.IfOwner[t.IfPeer[eg]]
			if seen[next] {
				continue
			}
			seen[next] = true
			rec(next, append(trail, eg), seen)
			delete(seen, next)
		}
	}
	for _, ia := range t.ASes {
		if t.Core[ia] {
			rec(ia, nil, map[addr.IA]bool{ia: true})
		}
	}
	return out
}

// CoreRoutes enumerates simple routes over core links up to maxLinks links.
func (t *Topo) CoreRoutes(maxLinks int) [][]uint16 {
	var out [][]uint16
	var rec func(cur addr.IA, trail []uint16, seen map[addr.IA]bool)
	rec = func(cur addr.IA, trail []uint16, seen map[addr.IA]bool) {
		if len(trail) > 0 {
			out = append(out, append([]uint16(nil), trail...))
		}
		if len(trail) == maxLinks {
			return
		}
		for _, eg := range t.CoreAdj[cur] {
			next := t.IfOwner[t.IfPeer[eg]]
			if seen[next] {
				continue
			}
			seen[next] = true
			rec(next, append(trail, eg), seen)
			delete(seen, next)
		}
	}
	for _, ia := range t.ASes {
		if t.Core[ia] {
			rec(ia, nil, map[addr.IA]bool{ia: true})
		}
	}
	return out
}

// BuildSeg constructs the segment for a chain of egress interfaces with the
// given timestamp and per-AS-entry ExpTime values (len(egress)+1 values).
func (t *Topo) BuildSeg(egress []uint16, core bool, ts uint32, segID uint16, exps []uint8) (*SegSpec, error) {
	ps, err := seg.CreateSegment(time.Unix(int64(ts), 0), segID)
	if err != nil {
		return nil, err
	}
	spec := &SegSpec{Core: core, Egress: append([]uint16(nil), egress...), TS: ts, Hops: map[[3]uint16]bool{}}
	cur := t.IfOwner[egress[0]]
	var inIF uint16
	minTTL := 256 * ExpUnit
	for i := 0; i <= len(egress); i++ {
		var outIF uint16
		var next addr.IA
		if i < len(egress) {
			outIF = egress[i]
			if t.IfOwner[outIF] != cur {
				return nil, fmt.Errorf("egress %d not owned by %s", outIF, cur)
			}
			next = t.IfOwner[t.IfPeer[outIF]]
		}
		e := seg.ASEntry{
			Local: cur, Next: next, MTU: 1400 + 10*i,
			HopEntry: seg.HopEntry{
				HopField:   seg.HopField{ExpTime: exps[i], ConsIngress: inIF, ConsEgress: outIF, MAC: [6]byte{byte(i), byte(ts), byte(ts >> 8)}},
				IngressMTU: 1300,
			},
		}
		spec.Hops[[3]uint16{inIF, outIF, uint16(exps[i])}] = true
		if ttl := HopTTL(exps[i]); ttl < minTTL {
			minTTL = ttl
		}
		if !core {
			for _, pif := range t.Peerings[cur] {
				rif := t.IfPeer[pif]
				e.PeerEntries = append(e.PeerEntries, seg.PeerEntry{
					Peer: t.IfOwner[rif], PeerInterface: rif, PeerMTU: 1290,
					HopField: seg.HopField{ExpTime: exps[i], ConsIngress: pif, ConsEgress: outIF, MAC: [6]byte{byte(i), 0xee}},
				})
				spec.Hops[[3]uint16{pif, outIF, uint16(exps[i])}] = true
			}
		}
		if err := ps.AddASEntry(context.Background(), e, nullSigner{}); err != nil {
			return nil, err
		}
		spec.ASes = append(spec.ASes, cur)
		if i < len(egress) {
			inIF = t.IfPeer[outIF]
			cur = next
		}
	}
	spec.Expiry = time.Unix(int64(ts), 0).Add(minTTL)
	spec.Seg = ps
	return spec, nil
}

// Matches reports whether ia matches pattern, where an AS number of zero in
// pattern stands for any AS of that ISD.
func Matches(ia, pattern addr.IA) bool {
	if pattern.AS() == 0 {
		return ia.ISD() == pattern.ISD()
	}
	return ia == pattern
}
