package beaconref

// Literal transcription of the statement of C26.
//
//	Selecting k beacons from n candidates ordered by length returns all of them
//	if n <= k; otherwise it returns exactly k of the candidates: the k-1 first
//	ones and one further candidate, which is the most link-diverse remaining
//	candidate with respect to the first (the shortest among equally diverse
//	ones) if its diversity exceeds the best diversity among the k-1 first ones,
//	and the first remaining candidate otherwise.

// Link is one inter-AS link of a beacon: the AS and its egress interface.
type Link struct {
	IA     uint64
	Egress uint16
}

// Cand is a candidate beacon reduced to what selection looks at.
type Cand struct {
	Links []Link // one per AS entry, in order
}

// Len is the candidate's length (number of AS entries).
func (c Cand) Len() int { return len(c.Links) }

// Diversity is the link diversity of c with respect to first: the number of
// links of first that do not appear in c (control/beacon/beacon.go documents
// Beacon.Diversity this way; the measure is asymmetric).
func Diversity(first, c Cand) int {
	d := 0
	for _, l := range first.Links {
		found := false
		for _, o := range c.Links {
			if o == l {
				found = true
				break
			}
		}
		if !found {
			d++
		}
	}
	return d
}

// Expect is the set of results the statement allows.
type Expect struct {
	All bool // n <= k: exactly the candidates
	// Otherwise: candidates Keep (indices 0..k-2) plus exactly one of Further.
	Keep    []int
	Further []int
	// K1 is set for k == 1 < n, where the statement has no "first" to be
	// diverse against: only "exactly one of the candidates" is demanded.
	K1 bool
	// diagnostics
	BestKept, BestRest int
}

// Select returns what the statement allows for k >= 1.
func Select(cands []Cand, k int) Expect {
	n := len(cands)
	if n <= k {
		return Expect{All: true}
	}
	if k == 1 {
		all := make([]int, n)
		for i := range all {
			all[i] = i
		}
		return Expect{K1: true, Further: all}
	}
	e := Expect{}
	first := cands[0]
	e.BestKept = -1
	for i := 0; i < k-1; i++ {
		e.Keep = append(e.Keep, i)
		if d := Diversity(first, cands[i]); d > e.BestKept {
			e.BestKept = d
		}
	}
	// most link-diverse remaining candidate(s)
	e.BestRest = -1
	for r := k - 1; r < n; r++ {
		if d := Diversity(first, cands[r]); d > e.BestRest {
			e.BestRest = d
		}
	}
	if e.BestRest > e.BestKept {
		minLen := -1
		for r := k - 1; r < n; r++ {
			if Diversity(first, cands[r]) == e.BestRest && (minLen < 0 || cands[r].Len() < minLen) {
				minLen = cands[r].Len()
			}
		}
		for r := k - 1; r < n; r++ {
			// ties in both diversity and length: the statement does not say
			// which one, so every such candidate is acceptable.
			if Diversity(first, cands[r]) == e.BestRest && cands[r].Len() == minLen {
				e.Further = append(e.Further, r)
			}
		}
		return e
	}
	e.Further = []int{k - 1}
	return e
}
