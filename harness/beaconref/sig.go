package beaconref

import (
	"crypto/ecdsa"
	"crypto/sha256"
	"crypto/sha512"
	"encoding/asn1"
	"errors"
	"fmt"
	"hash"
	"math/big"

	"google.golang.org/protobuf/proto"

	cppb "github.com/scionproto/scion/pkg/proto/control_plane"
	cryptopb "github.com/scionproto/scion/pkg/proto/crypto"
)

// RawEntry is the signed part of an AS entry as it travels on the wire.
type RawEntry struct {
	HeaderAndBody []byte
	Signature     []byte
}

// SigMeta is what the header of a signed AS entry says.
type SigMeta struct {
	Algo      cryptopb.SignatureAlgorithm
	IA        uint64
	TRCBase   uint64
	TRCSerial uint64
	SKID      []byte
	AssocLen  int
	Body      []byte
}

// ParseSigned decodes header_and_body (proto/crypto/v1/signed.proto) and the
// verification key id (proto/control_plane/v1/cppki.proto).
func ParseSigned(hdrAndBody []byte) (SigMeta, error) {
	var hb cryptopb.HeaderAndBody
	if err := proto.Unmarshal(hdrAndBody, &hb); err != nil {
		return SigMeta{}, fmt.Errorf("header_and_body: %w", err)
	}
	var h cryptopb.Header
	if err := proto.Unmarshal(hb.Header, &h); err != nil {
		return SigMeta{}, fmt.Errorf("header: %w", err)
	}
	var kid cppb.VerificationKeyID
	if err := proto.Unmarshal(h.VerificationKeyId, &kid); err != nil {
		return SigMeta{}, fmt.Errorf("verification_key_id: %w", err)
	}
	return SigMeta{
		Algo: h.SignatureAlgorithm, IA: kid.IsdAs, TRCBase: kid.TrcBase, TRCSerial: kid.TrcSerial,
		SKID: kid.SubjectKeyId, AssocLen: int(h.AssociatedDataLength), Body: hb.Body,
	}, nil
}

// AssociatedData is associated_data(ps, i) of proto/control_plane/v1/seg.proto:
// segment_info || for every earlier entry: header_and_body || signature.
func AssociatedData(segmentInfo []byte, entries []RawEntry, idx int) []byte {
	out := append([]byte(nil), segmentInfo...)
	for i := 0; i < idx; i++ {
		out = append(out, entries[i].HeaderAndBody...)
		out = append(out, entries[i].Signature...)
	}
	return out
}

func hashFor(a cryptopb.SignatureAlgorithm) (hash.Hash, error) {
	switch a {
	case cryptopb.SignatureAlgorithm_SIGNATURE_ALGORITHM_ECDSA_WITH_SHA256:
		return sha256.New(), nil
	case cryptopb.SignatureAlgorithm_SIGNATURE_ALGORITHM_ECDSA_WITH_SHA384:
		return sha512.New384(), nil
	case cryptopb.SignatureAlgorithm_SIGNATURE_ALGORITHM_ECDSA_WITH_SHA512:
		return sha512.New(), nil
	}
	return nil, fmt.Errorf("unsupported signature algorithm %v", a)
}

// VerifyEntry checks entry idx of a segment: ECDSA over
// H(header_and_body || associated_data(ps, idx)), and that the header's
// associated_data_length equals the length of that associated data.
func VerifyEntry(pub *ecdsa.PublicKey, segmentInfo []byte, entries []RawEntry, idx int) error {
	if idx < 0 || idx >= len(entries) {
		return errors.New("index out of range")
	}
	meta, err := ParseSigned(entries[idx].HeaderAndBody)
	if err != nil {
		return err
	}
	ad := AssociatedData(segmentInfo, entries, idx)
	if meta.AssocLen != len(ad) {
		return fmt.Errorf("associated_data_length %d, documented associated data has %d bytes", meta.AssocLen, len(ad))
	}
	h, err := hashFor(meta.Algo)
	if err != nil {
		return err
	}
	h.Write(entries[idx].HeaderAndBody)
	h.Write(ad)
	if !ecdsa.VerifyASN1(pub, h.Sum(nil), entries[idx].Signature) {
		return errors.New("ECDSA signature does not verify over header_and_body || associated data")
	}
	return nil
}

// MalleateECDSA maps an ASN.1 ECDSA signature (r, s) to the equally valid
// (r, n-s).
func MalleateECDSA(sig []byte, n *big.Int) ([]byte, error) {
	var rs struct{ R, S *big.Int }
	rest, err := asn1.Unmarshal(sig, &rs)
	if err != nil || len(rest) != 0 {
		return nil, errors.New("not an ASN.1 ECDSA signature")
	}
	rs.S = new(big.Int).Sub(n, rs.S)
	return asn1.Marshal(rs)
}
