package beaconref

import (
	"crypto/pbkdf2"
	"crypto/sha256"
	"time"
)

// DeriveHFKey derives the AES-128 hop-field key from the AS master secret:
// PBKDF2-HMAC-SHA256, salt "Derive OF Key", 1000 iterations, 16 bytes
// (doc/manuals/router.rst "Keys": the master keys are input to PBKDF2). It uses
// the standard library's crypto/pbkdf2, not golang.org/x/crypto/pbkdf2 that the
// implementation uses.
func DeriveHFKey(master []byte) ([]byte, error) {
	return pbkdf2.Key(sha256.New, string(master), []byte("Derive OF Key"), 1000, 16)
}

// MACInput lays out the 16 input bytes of the hop-field MAC exactly as drawn in
// doc/protocols/scion-header.rst, "Hop Field MAC Computation":
//
//	|               0               |            Beta_i             |
//	|                           Timestamp                           |
//	|       0       |    ExpTime    |          ConsIngress          |
//	|          ConsEgress           |               0               |
func MACInput(beta uint16, timestamp uint32, expTime uint8, consIngress, consEgress uint16) [16]byte {
	var b [16]byte
	b[2] = byte(beta >> 8)
	b[3] = byte(beta)
	b[4] = byte(timestamp >> 24)
	b[5] = byte(timestamp >> 16)
	b[6] = byte(timestamp >> 8)
	b[7] = byte(timestamp)
	b[9] = expTime
	b[10] = byte(consIngress >> 8)
	b[11] = byte(consIngress)
	b[12] = byte(consEgress >> 8)
	b[13] = byte(consEgress)
	return b
}

// HopMAC returns sigma = MAC_K(InputData) truncated to the 6 bytes carried in a
// hop field.
func HopMAC(c *CMAC, beta uint16, timestamp uint32, expTime uint8, consIngress, consEgress uint16) [6]byte {
	in := MACInput(beta, timestamp, expTime, consIngress, consEgress)
	full := c.Sum(in[:])
	var out [6]byte
	copy(out[:], full[:6])
	return out
}

// NextBeta is beta_{i+1} = beta_i XOR sigma_i[:2].
func NextBeta(beta uint16, sigma [6]byte) uint16 {
	return beta ^ (uint16(sigma[0])<<8 | uint16(sigma[1]))
}

// BetaChain returns beta_0..beta_n for a segment id and the hop MACs
// sigma_0..sigma_{n-1} carried by its entries: beta_0 = SegID,
// beta_{i+1} = beta_i XOR sigma_i[:2].
func BetaChain(segID uint16, sigmas [][6]byte) []uint16 {
	out := make([]uint16, 0, len(sigmas)+1)
	b := segID
	out = append(out, b)
	for _, s := range sigmas {
		b = NextBeta(b, s)
		out = append(out, b)
	}
	return out
}

// ---- ExpTime arithmetic (scion-header.rst, "ExpTime") ----
//
// absolute expiry [s] = Timestamp + (1 + ExpTime) * (24*60*60)/256

// ExpTimeSeconds256 returns 256 times the relative lifetime in seconds (an
// integer, the lifetime itself is a multiple of 337.5 s).
func ExpTimeSeconds256(expTime uint8) int64 { return (1 + int64(expTime)) * 24 * 60 * 60 }

// ExpTimeDuration is the relative lifetime as a duration (exact: 337.5 s is a
// whole number of nanoseconds).
func ExpTimeDuration(expTime uint8) time.Duration {
	return time.Duration(ExpTimeSeconds256(expTime) * int64(time.Second) / 256)
}

// HopExpiry is the absolute expiry of a hop field of a segment created at ts.
func HopExpiry(ts time.Time, expTime uint8) time.Time { return ts.Add(ExpTimeDuration(expTime)) }

// MaxExpTimeWithin returns the largest ExpTime whose lifetime is <= d, and
// false if even ExpTime 0 (337.5 s) exceeds d.
func MaxExpTimeWithin(d time.Duration) (uint8, bool) {
	best, ok := uint8(0), false
	for e := 0; e <= 255; e++ {
		if ExpTimeDuration(uint8(e)) <= d {
			best, ok = uint8(e), true
		}
	}
	return best, ok
}
