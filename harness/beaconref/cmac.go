// Package beaconref holds the independent reference models used by cmd/beacon
// (C23, C24, C26). Nothing in here calls the scion code whose behaviour it
// judges: the only scion imports are generated protobuf message types (plain
// data) in sig.go.
package beaconref

import (
	"bytes"
	"crypto/aes"
	"crypto/cipher"
	"encoding/hex"
	"fmt"
)

// CMAC is AES-CMAC as specified in RFC 4493, written directly on crypto/aes.
type CMAC struct {
	blk    cipher.Block
	k1, k2 [16]byte
}

// shiftLeft1 returns in << 1 over 128 bits and the bit shifted out.
func shiftLeft1(in [16]byte) (out [16]byte, carry byte) {
	for i := 15; i >= 0; i-- {
		out[i] = in[i]<<1 | carry
		carry = in[i] >> 7
	}
	return out, carry
}

// NewCMAC runs Generate_Subkey (RFC 4493 §2.3).
func NewCMAC(key []byte) (*CMAC, error) {
	blk, err := aes.NewCipher(key)
	if err != nil {
		return nil, err
	}
	c := &CMAC{blk: blk}
	var zero, l [16]byte
	blk.Encrypt(l[:], zero[:])
	var carry byte
	c.k1, carry = shiftLeft1(l)
	if carry == 1 {
		c.k1[15] ^= 0x87
	}
	c.k2, carry = shiftLeft1(c.k1)
	if carry == 1 {
		c.k2[15] ^= 0x87
	}
	return c, nil
}

// Sum is AES-CMAC(K, M) (RFC 4493 §2.4), full 128-bit tag.
func (c *CMAC) Sum(msg []byte) [16]byte {
	n := (len(msg) + 15) / 16
	complete := false
	if n == 0 {
		n = 1
	} else {
		complete = len(msg)%16 == 0
	}
	var last [16]byte
	tail := msg[(n-1)*16:]
	if complete {
		for i := 0; i < 16; i++ {
			last[i] = tail[i] ^ c.k1[i]
		}
	} else {
		var padded [16]byte
		copy(padded[:], tail)
		padded[len(tail)] = 0x80
		for i := 0; i < 16; i++ {
			last[i] = padded[i] ^ c.k2[i]
		}
	}
	var x, y [16]byte
	for i := 0; i < n-1; i++ {
		for j := 0; j < 16; j++ {
			y[j] = x[j] ^ msg[i*16+j]
		}
		c.blk.Encrypt(x[:], y[:])
	}
	for j := 0; j < 16; j++ {
		y[j] = x[j] ^ last[j]
	}
	var t [16]byte
	c.blk.Encrypt(t[:], y[:])
	return t
}

// SelfTest checks the implementation against the RFC 4493 §4 test vectors
// (AES-128) so that a broken reference can never silently judge the code.
func SelfTest() error {
	key, _ := hex.DecodeString("2b7e151628aed2a6abf7158809cf4f3c")
	m, _ := hex.DecodeString("6bc1bee22e409f96e93d7e117393172a" +
		"ae2d8a571e03ac9c9eb76fac45af8e51" +
		"30c81c46a35ce411e5fbc1191a0a52ef" +
		"f69f2445df4f9b17ad2b417be66c3710")
	c, err := NewCMAC(key)
	if err != nil {
		return err
	}
	if got := hex.EncodeToString(c.k1[:]); got != "fbeed618357133667c85e08f7236a8de" {
		return fmt.Errorf("cmac K1 = %s", got)
	}
	if got := hex.EncodeToString(c.k2[:]); got != "f7ddac306ae266ccf90bc11ee46d513b" {
		return fmt.Errorf("cmac K2 = %s", got)
	}
	for _, tv := range []struct {
		n    int
		want string
	}{
		{0, "bb1d6929e95937287fa37d129b756746"},
		{16, "070a16b46b4d4144f79bdd9dd04a287c"},
		{40, "dfa66747de9ae63030ca32611497c827"},
		{64, "51f0bebf7e3b9d92fc49741779363cfe"},
	} {
		got := c.Sum(m[:tv.n])
		want, _ := hex.DecodeString(tv.want)
		if !bytes.Equal(got[:], want) {
			return fmt.Errorf("cmac len %d: got %x want %s", tv.n, got, tv.want)
		}
	}
	// ExpTime arithmetic: the documented formula, three hand-computed points.
	if ExpTimeSeconds256(0) != 86400 || ExpTimeSeconds256(255) != 86400*256 || ExpTimeSeconds256(63) != 64*86400 {
		return fmt.Errorf("exptime self test")
	}
	return nil
}
