#!/bin/bash
# usage: seedcheck.sh <seed-id> <check ids...>   (seed worktree /tmp/seed-<id>, deliverables /tmp/seed-<id>-out)
id=$1; shift
wt=/tmp/seed-$id; out=/tmp/seed-$id-out
cd $wt || exit 2
export GOFLAGS=-mod=mod GOPROXY=off
echo "== demo WITH change (expect FAIL)"; (bash $out/demo.sh > /tmp/seed-$id-with.log 2>&1; echo "rc=$?")
files=$(git diff --name-only | tr '\n' ' ')
git diff -- $files > /tmp/seed-$id-src.diff; git apply -R /tmp/seed-$id-src.diff
echo "== demo WITHOUT change (expect PASS)"; (bash $out/demo.sh > /tmp/seed-$id-without.log 2>&1; echo "rc=$?")
git apply /tmp/seed-$id-src.diff
pk=$(for f in $files; do dirname $f; done | sort -u | sed 's#^#./#' | tr '\n' ' ')
echo "== existing tests of touched packages: $pk"
go test -count=1 -skip Seed $pk 2>&1 | grep -v "no test files" | grep -v "_seed" | tail -5
cd /verif
for c in "$@"; do
  o=$(VERIF_REPO=$wt ./check $c 2>&1); rc=$?
  echo "== check $c rc=$rc: $(echo "$o" | grep -m3 'key=' | tr '\n' ' ' | cut -c1-300) $(echo "$o" | grep '^RESULT' | cut -c1-160)"
done
