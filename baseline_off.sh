#!/bin/sh
# Runs the repository's pinned baseline suite with the verif build tag OFF
# (same command as /root/.vp/BASELINE.json; the only Go module is the root).
cd /repo || exit 2
exec go test -mod=mod -json -vet=off -count=1 -timeout 25m ./...
