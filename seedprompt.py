#!/usr/bin/env python3
"""Prints the prompt for a seeded-mutation sub-agent for property <id> (no /verif content other than the property text)."""
import json, sys
pid = sys.argv[1]
p = [json.loads(l) for l in open('/verif/properties.jsonl') if json.loads(l)['id'] == pid][0]
wt = "/tmp/seed-%s" % pid
out = "/tmp/seed-%s-out" % pid
print(f"""You are an experienced Go engineer helping to evaluate a verification tool by crafting ONE subtle regression in scionproto/scion (SCION inter-domain network architecture, Go). Work ONLY inside the git worktree {wt} (already created for you from the current tree) and write your deliverables to {out}/ . Do not read or touch /repo or /verif (they are off limits; your work must be independent of the tool being evaluated).

Property that your change must BREAK (id {pid}): "{p['title']}"
Statement: {p['statement']}
Quantified over: {p['quantifier']['text']}
Anchored in: {', '.join(p['anchors']['files'])}
Mechanisms: {'; '.join(m['name'] + ' (' + m['where'] + ')' for m in p['anchors']['mechanism'])}

Task:
1. Read the anchored code in {wt}. Make a small, realistic change to NON-test source files (the kind of slip a refactoring or an "optimisation" could introduce) that makes the property false for some inputs/schedules/histories, while the code still compiles and the existing unit tests of the affected packages still pass.
2. The break must need something specific to manifest — a particular interleaving, a fault or crash at a particular point, a multi-step sequence of operations, an unusual input or configuration, or two cooperating sites that each look fine alone — NOT something that ordinary use or the existing tests expose at once. Prefer a change whose trigger condition is narrow but realistic.
3. Write a demonstration: a new Go test file (name it *_seed_test.go, in the most suitable package; or a tiny main program) that FAILS with your change and PASSES without it. Verify both directions yourself (save your source change with `git diff -- <files> > /tmp/seed-{pid}-src.diff`, revert it with `git apply -R`, run, re-apply with `git apply`, run; do NOT use `git stash`: the stash is shared between all worktrees of the repository and other engineers work in parallel).
4. Run the existing tests of every package you touched and of their obvious dependants; they must pass with your change (timing-sensitive tests may flake because the machine is heavily loaded — if a test fails, re-run it alone and also check whether it fails the same way WITHOUT your change before concluding anything).
Go environment (no network; nothing can be downloaded): run every go command as
  cd {wt} && GOFLAGS=-mod=mod GOPROXY=off go test -count=1 ./path/to/pkg/...
(the default `go` works inside the worktree). Do not use build tags. Do not edit existing *_test.go files. Do not commit.
Deliverables in {out}/ (create the directory):
 - patch.diff : `git diff` of the source change ONLY (without the demonstration file), must apply with `git apply` on a clean checkout of the same commit;
 - the demonstration file(s) and demo.sh (the exact command that runs it from the worktree root);
 - meta.json : {{"property": "{pid}", "summary": "<what you changed>", "needs_to_manifest": "<the specific condition>", "why_existing_tests_pass": "...", "commands_run": ["..."], "demo_fails_with_change": true, "demo_passes_without_change": true}}
Finally leave the worktree with the source change and the demo file in place, and reply with a 5-line summary.""")
