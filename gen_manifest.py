#!/usr/bin/env python3
"""Regenerates MANIFEST.json from checks.json (one descriptor per claimed
property) and properties.jsonl (everything else goes to not_applicable)."""
import json, os, subprocess
V = os.path.dirname(os.path.abspath(__file__))
import glob
checks = {}
for f in sorted(glob.glob(os.path.join(V, "harness", "cmd", "*", "descriptor.json"))):
    for pid, c in json.load(open(f)).items():
        c.setdefault("bin", os.path.basename(os.path.dirname(f)))
        checks[pid] = c
props = [json.loads(l) for l in open(os.path.join(V, "properties.jsonl"))]
hooks = json.load(open(os.path.join(V, "hooks.json")))
na_reasons = json.load(open(os.path.join(V, "not_applicable.json")))
out = {
    "version": 1,
    "setup_cmd": "./check --build-all",
    "hooks": {
        "guard": "verif",
        "enable": "go build -tags verif (harness module /verif/harness with replace github.com/scionproto/scion => /repo)",
        "baseline_off_cmd": "/verif/baseline_off.sh",
        "source_commits": hooks["source_commits"],
        "add_only": True,
    },
    "engines": [],
    "checks": [],
    "notes": "Runtime monitoring: every check runs the real scion packages from /repo's working tree under generated/hostile workloads, "
             "observed by monitors with independent reference oracles; see DESIGN.md. known findings: known_findings.json.",
    "not_applicable": [],
}
bins = {}
ready = set(json.load(open(os.path.join(V, "ready.json"))))
for p in props:
    pid = p["id"]
    c = checks.get(pid) if pid in ready else None
    if not c:
        out["not_applicable"].append({"property_id": pid, "reason": na_reasons.get(pid, "no check built yet for this property (machinery under construction)")})
        continue
    bins.setdefault(c["bin"], []).append(pid)
    out["checks"].append({
        "property_id": pid,
        "quick_cmd": "./check %s --tier quick" % pid,
        "thorough_cmd": "./check %s --tier thorough" % pid,
        "evidence_file": "/verif/evidence/%s.json" % pid,
        "replay_cmd_template": "./check %s --replay {path}" % pid,
        "engine": c["bin"],
        "level_claimed": {"category": c.get("level", "exploration"), "text": c["text"], "design_ref": c.get("design_ref", "DESIGN.md §4 " + pid)},
        "level_note": c["note"],
        "technique": c["technique"],
    })
for b, ids in sorted(bins.items()):
    out["engines"].append({"name": b, "path": "/verif/harness/cmd/" + b, "serves_properties": ids,
                           "kind_free_text": "Go harness binary linking the real scion packages (tag verif); monitors + reference oracles"})
json.dump(out, open(os.path.join(V, "MANIFEST.json"), "w"), indent=1)
print("claimed", len(out["checks"]), "not_applicable", len(out["not_applicable"]))
