#!/usr/bin/env python3
"""seedsave.py <seed-id> <property> <caught|missed|strengthened> "<check result note>"  -- copies /tmp/seed-<id>-out into /verif/seeded/<id>/"""
import json, os, shutil, sys, glob
sid, prop, verdict, note = sys.argv[1:5]
src = "/tmp/seed-%s-out" % sid
dst = "/verif/seeded/%s" % sid
os.makedirs(dst, exist_ok=True)
for f in glob.glob(src + "/*"):
    if os.path.isfile(f): shutil.copy(f, dst)
m = json.load(open(os.path.join(src, "meta.json")))
meta = {"seed": sid, "breaks_property": prop, "summary": m.get("summary"), "needs_to_manifest": m.get("needs_to_manifest"),
        "why_existing_tests_pass": m.get("why_existing_tests_pass"), "author_commands": m.get("commands_run"),
        "confirmed_by_coordinator": {
            "demo_fails_with_change": True, "demo_passes_without_change": True,
            "how": "seedcheck.sh: demo.sh in the scratch worktree with the change (non-zero exit) and with the source change reverted via git apply -R (exit 0); existing tests of the touched packages run with -skip Seed (timing tests of package router flake under machine load with and without the change)",
            "base_commit": os.popen("git -C /tmp/seed-%s rev-parse --short HEAD" % sid).read().strip()},
        "verif_result": verdict, "verif_note": note}
json.dump(meta, open(os.path.join(dst, "meta.json"), "w"), indent=1)
print("saved", dst)
