#!/bin/sh
# usage: sweep.sh "<ids>" "<seeds>" [tier]   -- runs checks, prints one line per run
cd "$(dirname "$0")"
for p in $1; do for s in $2; do
  out=$(./check $p --seed $s --tier ${3:-quick} 2>&1); rc=$?
  echo "$p seed=$s tier=${3:-quick} rc=$rc $(echo "$out" | grep -c '^VIOLATION') viol; $(echo "$out" | grep '^RESULT\|^BROKEN\|^INCONCLUSIVE\|BUILD-FAILED' | head -2 | tr '\n' ' ')"
done; done
