#!/usr/bin/env python3
"""Prompt for a further seeded-mutation sub-agent for property <id> with suffix <sfx>: same as seedprompt.py
but with its own worktree/out dir and the summaries of earlier seeds (so that a different mechanism is chosen)."""
import json, subprocess, sys, glob, os
pid, sfx = sys.argv[1], sys.argv[2]
base = subprocess.check_output(['/verif/seedprompt.py', pid], text=True)
base = base.replace('/tmp/seed-%s' % pid, '/tmp/seed-%s%s' % (pid, sfx))
prev = []
for d in sorted(glob.glob('/verif/seeded/%s*' % pid)):
    name = os.path.basename(d)
    if name != pid and not (name.startswith(pid) and len(name) == len(pid) + 1 and name[-1].isalpha()):
        continue
    try:
        m = json.load(open(d + '/meta.json'))
        prev.append('- ' + str(m.get('summary', ''))[:400] + ' (needs: ' + str(m.get('needs_to_manifest', ''))[:300] + ')')
    except Exception:
        pass
if prev:
    base += ("\nOther engineers already produced these changes for the same property; yours must use a DIFFERENT "
             "mechanism, preferably in a different function or file and breaking a different clause of the statement, and "
             "with a different kind of trigger (stateful / multi-step / concurrent / configuration-dependent rather than a "
             "single unusual input):\n" + '\n'.join(prev) + '\n')
if sfx >= 'c':
    base += ("\nFor this round prefer a trigger of a kind not used above: an error / fault path (a dependency returns an error or a partial "
             "result at a particular point, a failure followed by a retry, a resource limit or size boundary reached, a restart with persisted "
             "state), an unusual but valid configuration, or a long-running effect (counter wrap, expiry of cached state, time passing between two steps).\n")
if sfx >= 'd':
    base += ("\nAlso consider, for this round: an interaction of two features that are each exercised alone (address families, path types, "
             "link types, extension headers, hidden paths, peering, services, grace periods ...), an arithmetic boundary (overflow, wrap-around, "
             "off-by-one at a size limit, signed/unsigned, truncation to a narrower type), or an order dependence (two operations that commute in the "
             "specification but not in the changed code). Keep the change small and plausible.\n")
print(base)
